package main

import (
	"fmt"
	"go/token"
	"sort"
	"strings"

	"golang.org/x/tools/go/ssa"
)

const pkgBungee = "pkg/edition/java/proxy/bungeecord"

// bungeeLayouts is the response layout of each BungeeCord sub-channel that answers, as documented by
// the BungeeCord plugin messaging channel (and ported by Velocity's BungeeCordMessageResponder):
// the first UTF is the sub-channel name itself.
var bungeeLayouts = map[string]string{
	"IP":              "UTF UTF Int32",
	"IPOther":         "UTF UTF UTF Int32",
	"PlayerCount":     "UTF UTF Int32",
	"PlayerList":      "UTF UTF UTF",
	"GetServers":      "UTF UTF",
	"GetServer":       "UTF UTF",
	"UUID":            "UTF UTF",
	"UUIDOther":       "UTF UTF UTF",
	"ServerIP":        "UTF UTF UTF Int16",
	"GetPlayerServer": "UTF UTF UTF",
}

// sub-channels that have side effects only
var bungeeSilent = []string{"ForwardToPlayer", "Forward", "Connect", "ConnectOther", "Message", "MessageRaw", "KickPlayer", "KickPlayerRaw"}

func init() {
	register(&propDef{
		ID:       "C26",
		Title:    "BungeeCord messaging channel behaves like BungeeCord",
		Patterns: []string{"./pkg/edition/java/proxy/bungeecord", "./pkg/edition/java/proto/util", "./pkg/edition/java/proxy"},
		Run:      runC26,
		Rule: "dispatch: Process compares the sub-channel with every name of the BungeeCord table and the branch taken for a name reaches (through static calls and local closures) " +
			"a response whose first UTF is that same name; layout: the util.Write* sequence that fills each response buffer equals the table's layout and the buffer is what is handed " +
			"to sendServerResponse; forward framing (P7): the token language prepareForwardMessage writes equals the one it read (UTF, Int16, payload) and the payload length is tested " +
			"non-negative before allocation; nilable lookups: every result of Server(x), PlayerByName(x) and ConnectedServer() is used only behind its non-nil edge; once per target: the " +
			"broadcast calls of processForwardToServer lie on mutually exclusive paths; player-targeted: every callback handed to readPlayer uses its player parameter for the effect and " +
			"takes no reported data from the requester's own server connection.",
		Explanation: "Decides: dispatch table completeness, binary layout of every response, unchanged forwarding incl. the length-prefixed channel, no nil dereference for unknown players " +
			"or servers, no double delivery, the named player is the one acted on. Does not decide: the text content of names/lists and what the providers return.",
		Fixtures: []string{"typednil", "wire", "guardcut"},
		Variants: []Variant{
			{Name: "forward-channel-unprefixed", File: pkgBungee + "/bungee_message.go",
				Old: "\t_ = util.WriteUTF(forwarded, channel)", New: "\tforwarded.WriteString(channel)", Expect: "forward-framing"},
			{Name: "forward-negative-length", File: pkgBungee + "/bungee_message.go",
				Old: "\tif err != nil || messageLen < 0 {", New: "\tif err != nil {", Expect: "forward-framing"},
			{Name: "message-unknown-server-deref", File: pkgBungee + "/bungee_message.go",
				Old: "\t} else if server := r.Server(target); server != nil {\n\t\tserver.BroadcastMessage(comp)\n\t}", New: "\t} else {\n\t\tr.Server(target).BroadcastMessage(comp)\n\t}", Expect: "nil-tested"},
			{Name: "serverip-port-as-int32", File: pkgBungee + "/bungee_message.go",
				Old: "\t\t_ = util.WriteInt16(b, int16(port))", New: "\t\t_ = util.WriteInt32(b, int32(port))", Expect: "layout:ServerIP"},
			{Name: "uuidother-answers-as-uuid", File: pkgBungee + "/bungee_message.go",
				Old: "\t\t_ = util.WriteUTF(b, \"UUIDOther\")", New: "\t\t_ = util.WriteUTF(b, \"UUID\")", Expect: "dispatch:UUIDOther"},
			{Name: "kick-kicks-requester", File: pkgBungee + "/bungee_message.go",
				Old: "\t\tkickReason, err := (&legacy.Legacy{}).Unmarshal([]byte(msg))\n\t\tif err != nil {\n\t\t\tkickReason = &component.Text{} // fallback to blank reason\n\t\t}\n\t\tplayer.Disconnect(kickReason)",
				New: "\t\tkickReason, err := (&legacy.Legacy{}).Unmarshal([]byte(msg))\n\t\tif err != nil {\n\t\t\tkickReason = &component.Text{} // fallback to blank reason\n\t\t}\n\t\tr.player.Disconnect(kickReason)", Expect: "player-targeted"},
			{Name: "forward-all-also-to-named", File: pkgBungee + "/bungee_message.go",
				Old: "\t} else {\n\t\tif server := r.Server(target); server != nil {\n\t\t\tserver.BroadcastPluginMessage(bungeeCordLegacyChannel, forward)\n\t\t}\n\t}", New: "\t}\n\tif server := r.Server(target); server != nil {\n\t\tserver.BroadcastPluginMessage(bungeeCordLegacyChannel, forward)\n\t}", Expect: "once-per-target"},
			{Name: "dispatch-case-dropped", File: pkgBungee + "/bungee_message.go",
				Old: "\tcase \"GetServers\":\n\t\tr.processGetServers()\n", New: "", Expect: "dispatch:GetServers"},
		},
	})
}

// closureTree returns fn and all functions nested in it.
func closureTree(fn *ssa.Function) []*ssa.Function {
	out := []*ssa.Function{fn}
	for _, a := range fn.AnonFuncs {
		out = append(out, closureTree(a)...)
	}
	return out
}

func runC26(c *Ctx) {
	scope := c.P.Funcs(Mod + "/" + pkgBungee)
	proc := c.MustFunc(pkgBungee + ":(*bungeeCordMessageResponder).Process")
	if proc == nil {
		return
	}
	c.Analysed(proc)
	// the provider adapter (package proxy) hands the responder its servers / players as interfaces
	checkNoTypedNil(c, "unknown-is-nil", c.P.Funcs(Mod+"/"+pkgProxy), "proxy/bungeecord")

	// ---- responses: per function tree, the Write* sequence into the buffer handed to sendServerResponse
	type response struct {
		fn     *ssa.Function
		layout string
		first  string
		at     ssa.Instruction
	}
	responsesOf := func(root *ssa.Function) []response {
		var out []response
		for _, f := range closureTree(root) {
			for _, ci := range callsIn(f, func(nm string, cc *ssa.CallCommon) bool { return strings.HasSuffix(nm, "bungeeCordMessageResponder).sendServerResponse") }) {
				// argument: (*bytes.Buffer).Bytes(b)
				cl := callValue(ci.Common().Args[1])
				if cl == nil || calleeName(&cl.Call) != "(*bytes.Buffer).Bytes" {
					continue
				}
				buf := cl.Call.Args[0]
				var ws []ssa.CallInstruction
				for _, w := range callsIn(f, func(nm string, cc *ssa.CallCommon) bool {
					return strings.Contains(nm, "proto/util.Write") && len(cc.Args) > 0 && strip(cc.Args[0]) == strip(buf)
				}) {
					ws = append(ws, w)
				}
				sort.SliceStable(ws, func(i, j int) bool { return domBefore(ws[i], ws[j]) })
				var kinds []string
				first := ""
				for i, w := range ws {
					n := calleeName(w.Common())
					kinds = append(kinds, n[strings.LastIndex(n, ".Write")+len(".Write"):])
					if i == 0 {
						first, _ = constString(w.Common().Args[1])
					}
					if !domBefore(w, ci) {
						kinds = append(kinds, "(conditional)")
					}
				}
				out = append(out, response{f, strings.Join(kinds, " "), first, ci})
			}
		}
		return out
	}

	// ---- dispatch: label → callee
	labels := map[string]*ssa.Function{}
	for _, e := range IfEdges(proc) {
		cond, truth := e.Cond()
		bo, ok := cond.(*ssa.BinOp)
		if !ok || bo.Op != token.EQL || !truth {
			continue
		}
		lab, isS := constString(bo.Y)
		if !isS {
			continue
		}
		// the first static call on the branch
		for _, in := range e.To().Instrs {
			if cl, isC := in.(*ssa.Call); isC {
				if f := staticCallee(&cl.Call); f != nil && strings.HasPrefix(fnPkgPath(f), Mod+"/"+pkgBungee) {
					labels[lab] = f
					break
				}
			}
		}
	}
	var names []string
	for k := range bungeeLayouts {
		names = append(names, k)
	}
	sort.Strings(names)
	for _, name := range names {
		f := labels[name]
		if f == nil {
			c.CheckAt("dispatch", name, c.P.Pos(proc.Pos()), false, "the sub-channel "+name+" of the BungeeCord channel is not dispatched by Process")
			continue
		}
		c.Analysed(closureTree(f)...)
		rs := responsesOf(f)
		if len(rs) != 1 {
			c.CheckAt("dispatch", name, c.P.Pos(f.Pos()), false, fmt.Sprintf("expected exactly one response for %s, found %d", name, len(rs)))
			continue
		}
		r := rs[0]
		c.Check("dispatch", name, r.at, r.first == name, fmt.Sprintf("the request %q is answered under the sub-channel name %q: the backend plugin waits for %q", name, r.first, name))
		c.Check("layout", name, r.at, r.layout == bungeeLayouts[name], fmt.Sprintf("response layout of %s must be [%s] (BungeeCord plugin messaging channel); derived [%s]", name, bungeeLayouts[name], r.layout))
	}
	for _, name := range bungeeSilent {
		f := labels[name]
		c.CheckAt("dispatch", name, c.P.Pos(proc.Pos()), f != nil, "the sub-channel "+name+" is not dispatched by Process")
		if f != nil {
			c.Analysed(closureTree(f)...)
		}
	}

	// ---- forward framing
	if pf := c.MustFunc(pkgBungee + ":(*bungeeCordMessageResponder).prepareForwardMessage"); pf != nil {
		c.Analysed(pf)
		vt, err := evalVersionTable(c.P)
		if err != nil {
			vt = &VersionTable{ByName: map[string]int64{}}
		}
		in := pf.Params[1]
		var outBuf ssa.Value
		for _, r := range returnsOf(pf) {
			if cl := callValue(retVal(r, 0)); cl != nil && calleeName(&cl.Call) == "(*bytes.Buffer).Bytes" {
				outBuf = seeThrough(cl.Call.Args[0])
			}
		}
		checkNoReusedBufferEscape(c, "payload-owned", scope, 5)
		if outBuf == nil {
			c.Undecided("forward-framing", "prepareForwardMessage", "no output buffer")
		} else {
			// returning no payload (nil) is the reject exit of this helper
			reject := func(r *ssa.Return) bool { return len(r.Results) == 1 && isNilConst(strip(retVal(r, 0))) }
			wr := newWireCtx(c.P, vt, -1)
			wr.failReturn = reject
			rs, re := wr.build(pf, map[ssa.Value]bool{in: true}, 0)
			ww := newWireCtx(c.P, vt, -1)
			ww.failReturn = reject
			ws, we := ww.build(pf, map[ssa.Value]bool{outBuf: true}, 0)
			ra, wa := wAuto{wr.nfa, rs, re}, wAuto{ww.nfa, ws, we}
			rd, wd := canonDFA(ra), canonDFA(wa)
			same := rd != nil && wd != nil && rd.key() == wd.key() && rd.N > 0
			detail := ""
			if rd != nil && wd != nil && !same {
				seq, side := dfaDifference(wd, rd)
				who := "is read but never written back as"
				if side == "current" {
					who = "is written although the input was read as something else:"
				}
				detail = fmt.Sprintf("[%s] %s; read: %v; written: %v", strings.Join(seq, " "), who, sampleLang(ra, 3, 20), sampleLang(wa, 3, 20))
			}
			c.CheckAt("forward-framing", "written=read@prepareForwardMessage", c.P.Pos(pf.Pos()), same,
				"the forwarded payload must be re-emitted exactly as consumed (UTF channel with its 2-byte length, Int16 length, payload): "+detail)
		}
		// allocation bounded below
		eachInstr(pf, func(x ssa.Instruction) {
			ms, ok := x.(*ssa.MakeSlice)
			if !ok {
				return
			}
			core := strip(ms.Len)
			r := RangeAt(ms.Block(), func(v ssa.Value) bool { return strip(v) == core })
			c.Check("forward-framing", "make(len>=0)@prepareForwardMessage", ms, r.HasLo() && r.Lo >= 0,
				"the payload length comes from the request as a signed short and is used as an allocation size without a non-negative test (makeslice panic)")
		})
	}

	// ---- nilable lookups
	nLk := 0
	for _, fn := range scope {
		eachInstr(fn, func(in ssa.Instruction) {
			cl, ok := in.(*ssa.Call)
			if !ok || !cl.Call.IsInvoke() {
				return
			}
			m := cl.Call.Method.Name()
			if m != "Server" && m != "PlayerByName" && m != "ConnectedServer" {
				return
			}
			if !strings.Contains(cl.Call.Value.Type().String(), "bungeecord.") && !strings.Contains(cl.Call.Method.Pkg().Path(), "bungeecord") {
				return
			}
			nLk++
			if cl.Referrers() == nil {
				return
			}
			for _, ref := range *cl.Referrers() {
				use, isUse := ref.(ssa.CallInstruction)
				if !isUse {
					continue // comparisons, phis, returns
				}
				derefs := use.Common().IsInvoke() && use.Common().Value == ssa.Value(cl)
				passes := false
				for _, a := range use.Common().Args {
					if a == ssa.Value(cl) {
						passes = true
					}
				}
				if !derefs && !passes {
					continue
				}
				g, ns := MustCross(use, func(e Edge, cond ssa.Value, truth bool) bool {
					v, isNil, okc := nilCmp(cond, truth)
					return okc && !isNil && strip(v) == ssa.Value(cl)
				})
				c.Check("nil-tested", m+"()-result@"+shortName(fn), use, g && ns > 0,
					"the result of "+m+"() is used without a nil test: an unknown player/server (or a player without a backend) makes the handler dereference nil")
			}
		})
	}
	if nLk < 8 {
		c.Undecided("nil-tested", "lookups", fmt.Sprintf("expected ≥8 nilable lookups, found %d", nLk))
	}

	// ---- once per target
	if fs := c.MustFunc(pkgBungee + ":(*bungeeCordMessageResponder).processForwardToServer"); fs != nil {
		c.Analysed(fs)
		var bs []ssa.CallInstruction
		for _, ci := range callsIn(fs, func(nm string, cc *ssa.CallCommon) bool { return cc.IsInvoke() && cc.Method.Name() == "BroadcastPluginMessage" }) {
			bs = append(bs, ci)
		}
		ok := len(bs) >= 1
		for i := range bs {
			for j := range bs {
				if i != j && flowsTo(bs[i], bs[j]) {
					ok = false
				}
			}
		}
		var at ssa.Instruction
		if len(bs) > 0 {
			at = bs[len(bs)-1]
		}
		c.Check("once-per-target", "BroadcastPluginMessage@processForwardToServer", at, ok,
			"a forwarded payload can be delivered twice to a server: the broadcast for ALL/ONLINE and the one for a named server are not on exclusive paths")
		// same payload to all
		for _, b := range bs {
			as := callArgs(b.Common())
			cl := callValue(as[len(as)-1])
			c.Check("once-per-target", "payload=prepareForwardMessage@processForwardToServer", b, cl != nil && strings.HasSuffix(calleeName(&cl.Call), ").prepareForwardMessage"),
				"the broadcast payload must be the prepared forward message, unchanged")
		}
	}

	// ---- player-targeted
	rp := c.P.Func(pkgBungee + ":(*bungeeCordMessageResponder).readPlayer")
	nCb := 0
	if rp != nil {
		for _, fn := range scope {
			for _, ci := range callsIn(fn, func(nm string, cc *ssa.CallCommon) bool { return strings.HasSuffix(nm, "bungeeCordMessageResponder).readPlayer") }) {
				as := ci.Common().Args
				for _, cb := range resolveFuncValue(as[len(as)-1]) {
					nCb++
					c.Analysed(cb)
					prm := cb.Params[len(cb.Params)-1]
					used := prm.Referrers() != nil && len(*prm.Referrers()) > 0
					if !used {
						// used inside nested closures through capture?
						for _, a := range cb.AnonFuncs {
							for _, fv := range a.FreeVars {
								if fv.Name() == prm.Name() {
									used = true
								}
							}
						}
					}
					c.CheckAt("player-targeted", "param-used@"+shortName(cb), c.P.Pos(cb.Pos()), used,
						"the callback for the named player ignores that player: the request is carried out on the requesting player's own connection instead of the named player's")
					// effects on a player go to the named one
					for _, f := range closureTree(cb) {
						for _, call := range callsIn(f, func(nm string, cc *ssa.CallCommon) bool { return cc.IsInvoke() && (cc.Method.Name() == "Disconnect") }) {
							fromParam := derivesFrom(call.Common().Value, 4, func(x ssa.Value) bool {
								if x == ssa.Value(prm) {
									return true
								}
								fv, isFV := x.(*ssa.FreeVar)
								return isFV && fv.Name() == prm.Name()
							})
							c.Check("player-targeted", "Disconnect(named)@"+shortName(f), call, fromParam, "the kick is applied to a player other than the named one")
						}
						// data written into a response must not come from the requester's own server connection
						for _, w := range callsIn(f, func(nm string, cc *ssa.CallCommon) bool { return strings.Contains(nm, "proto/util.Write") }) {
							as := w.Common().Args
							bad := derivesFrom(as[len(as)-1], 4, func(x ssa.Value) bool {
								cl, ok := x.(*ssa.Call)
								return ok && cl.Call.IsInvoke() && cl.Call.Method.Name() == "ConnectedServer"
							})
							if bad {
								c.Check("player-targeted", "requester-server-data@"+shortName(f), w, false,
									"the answer about the named player reports the requesting player's server (r.ConnectedServer()), not the named player's")
							}
						}
					}
				}
			}
		}
	}
	if nCb < 6 {
		c.Undecided("player-targeted", "readPlayer", fmt.Sprintf("expected ≥6 readPlayer callbacks, resolved %d", nCb))
	}
}
