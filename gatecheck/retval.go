package main

import (
	"go/token"

	"golang.org/x/tools/go/ssa"
)

// retVal returns the value a Return yields for result i, seeing through named results that were
// spilled to memory because the function has defers: the load from the result variable is replaced
// by the value most recently stored to it in the same block.
func retVal(r *ssa.Return, i int) ssa.Value {
	v := r.Results[i]
	ld, ok := v.(*ssa.UnOp)
	if !ok || ld.Op != token.MUL {
		return v
	}
	a, ok := ld.X.(*ssa.Alloc)
	if !ok {
		return v
	}
	instrs := r.Block().Instrs
	for k := len(instrs) - 1; k >= 0; k-- {
		if st, ok := instrs[k].(*ssa.Store); ok && st.Addr == a {
			return st.Val
		}
	}
	// stored in a dominating block: unique store overall
	if sv := singleStore(a); sv != nil {
		return sv
	}
	return v
}
